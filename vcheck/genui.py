"""Generators for whole console UI sessions (C22, op `ui`).

A case is a tiny RV64IMA program plus a script of input lines.  The generator keeps a rough picture
of the session (mode stack, cursor-independent guess whether `emulate` succeeds, which registers and
memory cells the emulator knows) so that most lines are meaningful where they arrive: commands of the
current mode, ENTER acknowledgements after expected errors and messages, values after expected value
prompts.  The picture may be wrong (it never looks at the implementation); then a line simply meets
another reader, which is as good a test.

Lines carry random spacing (leading/trailing/repeated spaces, all-space lines, tabs, a trailing CR),
0..4 arguments, numbers at the edges of every range, unknown commands, prefixes, upper case.

Limits kept on purpose (see incoming/suid/NOTES.md):
* scripts end with a tail of valid values: at the end of the input a value prompt never returns
  (`readValueNoErr` loops for ever) -- the harness reports HANG, the oracle rejects it;
* lines are shorter than 60000 bytes (`bufio.Scanner` gives up at 64 KiB: `Run` exits with an error);
* in the programs with loads and stores every value that can reach a value prompt is a multiple of
  0x100 in [0, 0x8000) \\ {0x1000}, and every access of one program has the same width at offsets that are
  multiples of it: loads never overlap stored data partially (F03, `emulator.memValue`, is another
  slice's open finding); addresses near 2^64 come from the dedicated stream `g_ui_top` only (F45, repaired: the
  step fails with an error message).
"""
import struct

MAXINT = 2 ** 63 - 1


# ---------------------------------------------------------------- a five line assembler
def _r(f7, rs2, rs1, f3, rd, op): return (f7 << 25) | (rs2 << 20) | (rs1 << 15) | (f3 << 12) | (rd << 7) | op
def _i(imm, rs1, f3, rd, op): return ((imm & 0xfff) << 20) | (rs1 << 15) | (f3 << 12) | (rd << 7) | op
def _s(imm, rs2, rs1, f3, op):
    imm &= 0xfff
    return ((imm >> 5) << 25) | (rs2 << 20) | (rs1 << 15) | (f3 << 12) | ((imm & 31) << 7) | op
def _b(imm, rs2, rs1, f3):
    imm &= 0x1fff
    return ((((imm >> 12) & 1) << 31) | (((imm >> 5) & 0x3f) << 25) | (rs2 << 20) | (rs1 << 15) | (f3 << 12)
            | (((imm >> 1) & 0xf) << 8) | (((imm >> 11) & 1) << 7) | 0x63)
def _j(imm, rd):
    imm &= 0x1fffff
    return ((((imm >> 20) & 1) << 31) | (((imm >> 1) & 0x3ff) << 21) | (((imm >> 11) & 1) << 20)
            | (((imm >> 12) & 0xff) << 12) | (rd << 7) | 0x6f)
def addi(rd, rs1, imm): return _i(imm, rs1, 0, rd, 0x13)
def add(rd, rs1, rs2): return _r(0, rs2, rs1, 0, rd, 0x33)
def mul(rd, rs1, rs2): return _r(1, rs2, rs1, 0, rd, 0x33)
def ld(rd, rs1, imm): return _i(imm, rs1, 3, rd, 0x03)
def lw(rd, rs1, imm): return _i(imm, rs1, 2, rd, 0x03)
def sd(rs2, rs1, imm): return _s(imm, rs2, rs1, 3, 0x23)
def sw(rs2, rs1, imm): return _s(imm, rs2, rs1, 2, 0x23)
def bne(rs1, rs2, off): return _b(off, rs2, rs1, 1)
def jal(rd, off): return _j(off, rd)
def jalr(rd, rs1, imm): return _i(imm, rs1, 0, rd, 0x67)
def lui(rd, imm): return ((imm & 0xfffff) << 12) | (rd << 7) | 0x37
ECALL = 0x73


def hexw(ws):
    return b"".join(struct.pack("<I", w) for w in ws).hex()


class Prog:
    """ins: per instruction in address order (reads, write, loads, stores) with loads/stores = [(base, off)];
    ilines: listing line of every instruction in the initial listing; nlines: lines of the listing."""
    def __init__(self, name, entry, blocks, ins, ilines, nlines, headers, mem=False):
        self.name, self.entry, self.blocks, self.ins = name, entry, blocks, ins
        self.ilines, self.nlines, self.headers, self.mem = ilines, nlines, headers, mem
        self.text = "%d %d %s" % (entry, len(blocks), " ".join("%d %s" % (a, hexw(ws)) for a, ws in blocks))


PROGRAMS = [
    Prog("straight", 0x1000,
         [(0x1000, [addi(1, 0, 5), addi(2, 0, 7), addi(3, 0, 9), add(4, 1, 2), mul(5, 3, 4), addi(6, 7, -1)])],
         [((), 1, (), ()), ((), 2, (), ()), ((), 3, (), ()), ((1, 2), 4, (), ()), ((3, 4), 5, (), ()), ((7,), 6, (), ())],
         [1, 2, 3, 4, 5, 6], 8, [0]),
    Prog("loop", 0x1000,
         [(0x1000, [addi(1, 0, 3), addi(1, 1, -1), bne(1, 0, -4), addi(2, 0, 1), ECALL])],
         [((), 1, (), ()), ((1,), 1, (), ()), ((1,), None, (), ()), ((), 2, (), ()), ((), None, (), ())],
         [1, 4, 5, 8, 9], 11, [0, 3, 7]),
    Prog("mem8", 0x1000,
         [(0x1000, [lui(2, 2), sd(1, 2, 0), ld(3, 2, 0), ld(4, 2, 8), sd(4, 2, 16), ld(5, 6, 0), add(7, 5, 3)])],
         [((), 2, (), ()), ((1, 2), None, (), ((2, 0),)), ((2,), 3, ((2, 0),), ()), ((2,), 4, ((2, 8),), ()),
          ((4, 2), None, (), ((2, 16),)), ((6,), 5, ((6, 0),), ()), ((5, 3), 7, (), ())],
         [1, 2, 3, 4, 5, 6, 7], 9, [0], mem=True),
    Prog("mem4", 0x1004,
         [(0x1000, [addi(9, 0, 1), lw(3, 2, 0), sw(3, 2, 4), lw(4, 2, 8), addi(5, 4, 1), sw(5, 2, 0)])],
         [((), 9, (), ()), ((2,), 3, ((2, 0),), ()), ((3, 2), None, (), ((2, 4),)), ((2,), 4, ((2, 8),), ()),
          ((4,), 5, (), ()), ((5, 2), None, (), ((2, 0),))],
         [1, 4, 5, 6, 7, 8], 10, [0, 3], mem=True),
    Prog("two", 0x2000,
         [(0x1000, [addi(1, 0, 1), addi(2, 0, 2), addi(3, 2, 3), add(4, 3, 1)]), (0x2000, [addi(5, 0, 1), addi(6, 5, 1)])],
         [((), 1, (), ()), ((), 2, (), ()), ((2,), 3, (), ()), ((3, 1), 4, (), ()), ((), 5, (), ()), ((5,), 6, (), ())],
         [1, 2, 3, 4, 7, 8], 10, [0, 6]),
    Prog("call", 0x1000,
         [(0x1000, [jal(1, 12), addi(2, 0, 1), ECALL, addi(3, 0, 2), jalr(0, 1, 0)])],
         [((), 1, (), ()), ((), 2, (), ()), ((), None, (), ()), ((), 3, (), ()), ((1,), None, (), ())],
         [1, 4, 5, 8, 9], 11, [0, 3, 7]),
]


# ---------------------------------------------------------------- numbers and words
def num_edge(r, hi):
    """a number argument: inside [0, hi], at and around its ends, and everything a parser can trip over"""
    k = r.random()
    if k < 0.45:
        return str(r.randint(0, max(hi, 0)))
    if k < 0.60:
        return str(r.choice([0, 1, hi - 1, hi, hi + 1, hi + 2, 2 * hi + 1]))
    return r.choice([str(MAXINT), str(MAXINT + 1), str(MAXINT - 1), str(2 ** 64 - 1), str(2 ** 64), "-1", "-0", "+0",
                     "+" + str(r.randint(0, hi + 1)), "007", "0x10", "1e3", "1_0", "9" * 40, "-" + "9" * 40,
                     "", "x", "１", "٣", "1.5", "--1", "+-1", "+", "-", "0" * 30 + "2", "\t1", "1\t"])


def addr_arg(r):
    k = r.random()
    if k < 0.5:
        a = r.choice([0x1000, 0x1004, 0x1010, 0x1013, 0x1017, 0x1020, 0x2000, 0x2004, 0x2008, 0x2010, 0x2017, 0x2100,
                      0x3000, 0, 0x100, 0x108, 0xfff, 0x7f00, r.randint(0, 0x8000)])
        return fmt_addr(r, a)
    return r.choice(["", "5", "0", "00", "0x", "0b", "0b2", "08", "-1", "+1", str(2 ** 64 - 1), str(2 ** 64), "0x" + "f" * 16,
                     "0x1" + "0" * 16, "1_0", "x", "0o17", "4096 ", "1e3"])


def fmt_addr(r, a):
    f = r.choice(["d", "x", "X", "o", "b"])
    return {"d": "%d" % a, "x": "0x%x" % a, "X": "0X%X" % a, "o": "0%o" % a if a else "0", "b": "0b" + format(a, "b")}[f]


SAFE = [0, 0x100, 0x2000, 0x2100, 0x3000, 0x3100, 0x5000, 0x7f00]


def value_ok(r, prog):
    """a line a value prompt accepts"""
    if prog.mem:
        v = r.choice(SAFE)
        f = r.choice(["d", "x", "X", "o", "O", "b", "+"])
        return {"d": "%d" % v, "x": "0x%x" % v, "X": "0X%X" % v, "o": "0o%o" % v, "O": ("0%o" % v) if v else "0",
                "b": "0b" + format(v, "b"), "+": "+%d" % v}[f]
    k = r.random()
    if k < 0.5:
        return str(r.randint(0, 300))
    return r.choice(["-1", "-0x80", "0x" + "f" * 16, "0x1" + "0" * 16, str(MAXINT + 1), "9" * 40, "-" + "9" * 30, "0b101",
                     "0o777", "017", "+5", "0", "-0", "0X10", "0B1", "0O7"])


def value_bad(r):
    return r.choice(["", "zz", "1_0", "0x", "12a", " 5", "5 ", "+", "-", "0b2", "09", "1.0", "x1", "\t", "s", "q", "0x_1", "1e3"])


def spaced(r, words):
    """join the words with random spacing"""
    k = r.random()
    if k < 0.55:
        return " ".join(words)
    sep = lambda: " " * r.choice([1, 1, 2, 3, 7])
    s = sep().join(words) if k < 0.9 else " ".join(words).replace(" ", "\t", 1)
    if r.random() < 0.5:
        s = " " * r.randint(1, 4) + s
    if r.random() < 0.5:
        s = s + " " * r.randint(1, 4)
    if r.random() < 0.05:
        s = s + "\r"
    return s


def mangle(r, w):
    k = r.random()
    if k < 0.4:
        return w.upper()
    if k < 0.7 and len(w) > 1:
        return w[:r.randint(1, len(w) - 1)]
    return r.choice(["foo", "0", "?", w + w, "x" + w, w + ".", "\t" + w, "#", "help!", "quitt", "-"])


# ---------------------------------------------------------------- the session picture
class Sess:
    def __init__(self, r, prog):
        self.r, self.p = r, prog
        self.stack = ["dis"]
        self.cursor = 0
        self.lines = []
        self.nerr = self.nok = 0

    def emit(self, s):
        self.lines.append(s)

    def ack(self):
        """the line awaited after a message: mostly ENTER"""
        self.emit(self.r.choice(["", "", "", "", "x", " ", "q", "ok"]))

    def fail(self, words):
        self.emit(spaced(self.r, words))
        self.ack()
        self.nerr += 1

    # -- value prompts
    def value(self):
        r = self.r
        while r.random() < 0.15:
            self.emit(value_bad(r))
            self.ack()
        self.emit(value_ok(r, self.p))

    # -- disassembler
    def dis_cmd(self):
        r, p = self.r, self.p
        n = p.nlines
        k = r.random()
        if k < 0.12:
            w = r.choice(["down", "d", "up", "u"])
            a = num_edge(r, n)
            self.simple_num(w, a, lambda v: self.move_cursor(v if w[0] == "d" else -v))
        elif k < 0.22:
            a = num_edge(r, n)
            self.simple_num(r.choice(["goto", "g"]), a, lambda v: self.set_cursor(v))
        elif k < 0.34:
            a, b_ = num_edge(r, n), num_edge(r, n)
            if r.random() < 0.5:
                x = r.choice(p.ilines + p.headers)
                a, b_ = str(x), str(r.choice([x + 1, x - 1, x + 2, r.choice(p.ilines + p.headers)]))
            self.emit(spaced(r, [r.choice(["move", "mv", "m"]), a, b_]))
            self.emit(r.choice(["", "", "b 1"]))       # usually rejected (dependencies): acknowledge
        elif k < 0.42:
            self.emit(spaced(r, [r.choice(["bounds", "b"]), str(r.choice(p.ilines)) if r.random() < 0.6 else num_edge(r, n)]))
            if r.random() < 0.3:
                self.emit("")
        elif k < 0.54:
            pat = r.choice(["addi", "x1", "Block", "^$", "x[0-9]+, x0", "ecall|jal", "l[dw]", "a+", ".", "zzz", "(", "[", "a{2,1}",
                            "\\", "*", "error: x", "addi x1, x0", "0x1", "  ", "\t", "é", "add  x", "sd x1, 0(x2)", "|", "^",
                            "B.*1", "[[:digit:]]+ +\\|", "(" * 1500 + ")" * 1500, "a{1000}{1000}", "(a*)*b", "[[:alpha:]",
                            "((a{1,1000}){1,1000}){1,1000}", "x{1001}", "[z-a]", "\\Q", "(?i)ADDI", "\\x{110000}"])
            self.emit(spaced(r, [r.choice(["find", "f", "/"])] + pat.split(" ")) if r.random() < 0.8 else
                      r.choice(["find", "f", "/"]) + " " + pat)
            if pat in ("zzz", "(", "[", "a{2,1}", "\\", "*", "é", "add  x", "a{1000}{1000}", "(a*)*b", "[[:alpha:]",
                       "((a{1,1000}){1,1000}){1,1000}", "x{1001}", "[z-a]", "\\Q", "(?i)ADDI", "\\x{110000}") or r.random() < 0.2:
                self.ack()
        elif k < 0.60:
            self.emit(spaced(r, [r.choice(["entrypoint", "entry"])]))
            self.cursor = p.ilines[0]
        elif k < 0.64:
            self.emit(spaced(r, ["alllines"]))
            self.ack()
        elif k < 0.90:
            # emulate: mostly from an instruction line
            if r.random() < 0.75:
                ln = r.choice(p.ilines)
                self.emit(spaced(r, [r.choice(["goto", "g"]), str(ln)]))
                self.cursor = ln
            self.emit(spaced(r, [r.choice(["emulate", "emul", "e"])]))
            if self.cursor in p.ilines:
                self.stack.append("emu")
                self.pc = p.ilines.index(self.cursor)
                self.known, self.cells = set(), set()
                self.nok += 1
            else:
                self.ack()
                self.nerr += 1
        else:
            self.std_cmd()

    def simple_num(self, w, a, then):
        self.emit(spaced(self.r, [w, a]))
        try:
            v = int(a, 10) if a.strip("+-").isdigit() and a.isascii() else None
        except ValueError:
            v = None
        if v is None or v < 0 or v > MAXINT or not then(v):
            self.ack()
            self.nerr += 1
        else:
            self.nok += 1

    def move_cursor(self, d):
        return self.set_cursor(self.cursor + d)

    def set_cursor(self, v):
        if 0 <= v < self.p.nlines:
            self.cursor = v
            return True
        return False

    # -- emulator
    def emu_cmd(self):
        r, p = self.r, self.p
        k = r.random()
        if k < 0.55:
            self.emit(spaced(r, [r.choice(["step", "s", "forward", "fwd", "f"])]))
            if self.pc is None or self.pc >= len(p.ins):
                self.ack()
                self.nerr += 1
                return
            reads, write, loads, stores = p.ins[self.pc]
            for x in reads:
                if x not in self.known:
                    self.value()
                    self.known.add(x)
            for c in loads:
                if c not in self.cells:
                    if r.random() < 0.8:
                        self.value()
                    self.cells.add(c)
            for c in stores:
                self.cells.add(c)
            if write is not None:
                self.known.add(write)
            self.pc += 1
            if p.name in ("loop", "call") and r.random() < 0.4:
                self.pc = r.randrange(len(p.ins) + 1)      # jumps: the picture gets vague
            self.nok += 1
        elif k < 0.62:
            self.emit(spaced(r, [r.choice(["memories", "mems", "ms"])]))
            self.ack()
        elif k < 0.78:
            key = r.choice(["memory", "memory", "memory", "memory", "nokey", "x1", "Memory", "mem\tory", "#r:w:ip", ")", "é"])
            self.emit(spaced(r, [r.choice(["memory", "mem", "m"]), key]))
            self.stack.append("mem")
            self.mrows = 4
            self.nok += 1
        elif k < 0.92:
            reg = r.choice(["x%d" % r.randint(1, 7), "x1", "x2", "#r:w:ip", "x0", "x99", "X1", "ip", "", "x1\t"])
            if reg == "#r:w:ip" and (p.mem or r.random() < 0.5):
                reg = "x3"
            self.emit(spaced(r, [r.choice(["regmod", "rmod"]), reg]))
            num = int(reg[1:]) if reg[:1] == "x" and reg[1:].isdigit() else None
            if (num in self.known) or reg == "#r:w:ip":
                self.value()
                if reg == "#r:w:ip":
                    self.pc = None
                self.nok += 1
            else:
                self.ack()
                self.nerr += 1
        else:
            self.std_cmd()

    # -- memory view
    def mem_cmd(self):
        r = self.r
        k = r.random()
        if k < 0.45:
            w = r.choice(["down", "d", "up", "u", "goto", "g"])
            self.emit(spaced(r, [w, num_edge(r, self.mrows)]))
            if r.random() < 0.5:
                self.ack()
        elif k < 0.85:
            w = r.choice(["address", "addr", "a"])
            self.emit(spaced(r, [w, addr_arg(r) if r.random() < 0.5 else fmt_addr(r, r.choice([0x1000, 0x1008, 0x1013, 0x2000, 0x2008,
                                                                                              0x2010, 0x3000, 0, 0x100, 4]))]))
            if r.random() < 0.4:
                self.ack()
        else:
            self.std_cmd()

    # -- help, quit
    def std_cmd(self):
        r = self.r
        if r.random() < 0.5:
            self.emit(spaced(r, [r.choice(["help", "h"])]))
            self.ack()
            self.nok += 1
        else:
            self.emit(spaced(r, [r.choice(["quit", "q"])]))
            self.ack()
            if len(self.stack) > 1:
                self.stack.pop()
            else:
                self.stack = []

    VOCAB = {"dis": ["down", "up", "move", "bounds", "find", "goto", "entrypoint", "alllines", "emulate", "e", "quit", "help"],
             "emu": ["step", "s", "forward", "memories", "memory", "m", "regmod", "quit", "help", "q"],
             "mem": ["down", "up", "goto", "address", "a", "quit", "help", "h"]}

    def odd_line(self):
        """lines that are no well-formed command of the mode"""
        r = self.r
        mode = self.stack[-1]
        k = r.random()
        if k < 0.2:
            self.emit(" " * r.choice([1, 1, 2, 5, 40]))               # F20
            self.ack()
        elif k < 0.3:
            self.emit(r.choice(["\t", " \t ", "\r", " \r"]))
            if self.lines[-1] != "\r":
                self.ack()
        elif k < 0.4:
            self.emit("")
        elif k < 0.65:
            # wrong number of arguments (surplus words: F43)
            w = r.choice(self.VOCAB[mode])
            nargs = r.randint(0, 4)
            args = [r.choice([num_edge(r, 9), "x1", "memory", "now", "0"]) for _ in range(nargs)]
            args = [a for a in args if a != ""]
            self.emit(spaced(r, [w] + args))
            self.ack()
        elif k < 0.9:
            w = mangle(r, r.choice(self.VOCAB[mode]))
            self.emit(spaced(r, [w] + ([num_edge(r, 9)] if r.random() < 0.5 else [])))
            self.ack()
        else:
            other = r.choice([m for m in self.VOCAB if m != mode])
            self.emit(spaced(r, [r.choice(self.VOCAB[other])] + ([str(r.randint(0, 9))] if r.random() < 0.5 else [])))
            self.ack()
        self.nerr += 1

    def one(self):
        if not self.stack:
            return False
        if self.r.random() < 0.18:
            self.odd_line()
            return True
        {"dis": self.dis_cmd, "emu": self.emu_cmd, "mem": self.mem_cmd}[self.stack[-1]]()
        return True


def hx(s):
    b = s.encode("utf-8") if isinstance(s, str) else s
    return "x:" + b.hex() if b else "-"


def ui_line(prog, height, lines):
    return "ui %s %d %d %s" % (prog.text, height, len(lines), " ".join(hx(l) for l in lines))


def tail(r, prog):
    """valid values (or anything when no prompt is open): the script never ends inside a value prompt"""
    return [value_ok(r, prog) if prog.mem else "0" for _ in range(r.randint(10, 14))]


def g_ui(r):
    prog = r.choice(PROGRAMS)
    s = Sess(r, prog)
    target = r.choice([1, 2, 3, 5, 8, 12, 16, 20, 25])
    while len(s.lines) < target and s.one():
        pass
    lines = s.lines[:25]
    height = r.choice([12, 12, 12, 9, 20, 5, 40, 0, 1, 7])
    return ui_line(prog, height, lines + tail(r, prog))


def g_ui_deep(r):
    """sessions that walk disassembler -> emulator -> memory view and back"""
    prog = r.choice(PROGRAMS)
    s = Sess(r, prog)
    ln = r.choice(prog.ilines)
    s.emit("g %d" % ln)
    s.cursor = ln
    s.emit(r.choice(["e", "emulate", "emul"]))
    s.stack.append("emu")
    s.pc, s.known, s.cells = prog.ilines.index(ln), set(), set()
    for _ in range(r.randint(1, 8)):
        s.emu_cmd() if s.stack and s.stack[-1] == "emu" else s.one()
    if s.stack and s.stack[-1] == "emu" and r.random() < 0.7:
        s.emit("memory memory")
        s.stack.append("mem")
        s.mrows = 4
        for _ in range(r.randint(1, 5)):
            s.one()
    while s.stack and r.random() < 0.8:
        s.emit(r.choice(["q", "quit"]))
        s.emit("")
        s.stack.pop()
    height = r.choice([12, 12, 16, 30, 9])
    return ui_line(prog, height, s.lines[:40] + tail(r, prog))


WITNESSES = [
    # F20: a line of spaces
    lambda p: ui_line(p, 12, [" ", ""]),
    lambda p: ui_line(p, 12, ["     ", "", "q", ""]),
    # F43: a surplus word after a command without optional arguments
    lambda p: ui_line(p, 12, ["goto 1 2", ""]),
    lambda p: ui_line(p, 12, ["down 1 2", "", "entrypoint x", "", "quit now", "", "h h", "", "q", ""]),
    lambda p: ui_line(p, 12, ["g 1", "e", "s 1", "", "ms x", "", "m memory y", "", "regmod x1 5", "", "q", "", "q", ""]),
    lambda p: ui_line(p, 12, ["g 1", "e", "m memory", "a 5 6", "", "d 1 1", "", "q", "", "q", "", "q", ""]),
    # quit at every depth, end of input in the acknowledgement
    lambda p: ui_line(p, 12, ["q"]),
    lambda p: ui_line(p, 12, ["g 1", "e", "m memory", "q", "", "q", "", "q"]),
    # help in every mode
    lambda p: ui_line(p, 12, ["h", "", "g 1", "e", "help", "", "m nokey", "h", "", "d 1", "", "q", "", "q", "", "q", ""]),
    # emulate on a header and on the blank line
    lambda p: ui_line(p, 12, ["e", "", "g %d" % (p.nlines - 1), "e", "", "q", ""]),
]


TOP_VALUES = ["0xffffffffffffffff", "0xffffffffffffffff", "18446744073709551615", "0xfffffffffffffffd", "0xfffffffffffffffc",
              "0xfffffffffffffff9", "0xfffffffffffffff8", "0xfffffffffffffff7", "0xfffffffffffffff0", "0xffffffffffffff00",
              "0XFFFFFFFFFFFFFFFE", "0o1777777777777777777777", "-1", "-4", "-8", "-9"]

# (program, listing line, registers asked in order, index of the address register in that list)
TOP_SPOTS = [("mem8", 6, [6], 0), ("mem8", 2, [1, 2], 1), ("mem8", 3, [2], 0),
             ("mem4", 4, [2], 0), ("mem4", 5, [3, 2], 1), ("mem4", 6, [2], 0)]


def g_ui_top(r):
    """F45 from the console: emulate at a load / store whose address register is unknown, step, answer the prompt for
    that register with a value at the top of the address space (the access ends at, just below or beyond 2^64); the
    step fails with an error message (acknowledged), the session goes on: step again (fails again, now without a
    prompt), regmod the register to a harmless value, step (succeeds), memory view, quit"""
    name, ln, asked, ai = r.choice(TOP_SPOTS)
    prog = next(p for p in PROGRAMS if p.name == name)
    lines = ["g %d" % ln, r.choice(["e", "emulate"]), r.choice(["s", "step", "f"])]
    for i, _ in enumerate(asked):
        while r.random() < 0.1:
            lines += [value_bad(r), ""]
        lines.append(r.choice(TOP_VALUES) if i == ai else value_ok(r, prog))
    lines.append("")                      # the error message of the failed step (or a memory prompt: empty = rejected)
    for _ in range(r.randint(0, 4)):
        k = r.random()
        if k < 0.35:
            lines += [r.choice(["s", "step"]), ""]
        elif k < 0.6:
            lines += ["regmod x%d" % asked[ai], r.choice([value_ok(r, prog), r.choice(TOP_VALUES)])]
        elif k < 0.75:
            lines += ["m memory", r.choice(["d 1", "a 0xfffffffffffffff0", "a 8192", "u 1"]), "", "q", ""]
        elif k < 0.85:
            lines += ["ms", ""]
        else:
            lines += [value_ok(r, prog)]
    if r.random() < 0.7:
        lines += ["q", "", "q", ""]
    height = r.choice([12, 12, 16, 9, 30])
    return ui_line(prog, height, lines + tail(r, prog))


def g_ui_witness(r):
    return r.choice(WITNESSES)(r.choice(PROGRAMS))


def g_ui_long(r):
    """very long lines (below the 64 KiB limit of bufio.Scanner)"""
    prog = r.choice(PROGRAMS)
    n = r.choice([4095, 4096, 4097, 20000, 59000])
    k = r.random()
    if k < 0.3:
        line = " " * n
    elif k < 0.5:
        line = " " * n + "d 1"
    elif k < 0.7:
        line = "goto " + "9" * n
    elif k < 0.85:
        line = "x" * n
    else:
        line = "find " + "a" * min(n, 900)
    return ui_line(prog, 12, [line, "", "d 1", "q", ""])


# ---------------------------------------------------------------- the real binary under a pseudo-terminal (thorough tier)
def elf_of(prog):
    """a little-endian RV64 executable whose loadable segments are the blocks of the program"""
    from . import genelf as ge
    secs, segs = [], []
    for i, (addr, ws) in enumerate(prog.blocks):
        text = bytes.fromhex(hexw(ws))
        secs.append(ge.Sec(ge.SHT_PROGBITS, ge.SHF_ALLOC | ge.SHF_EXECINSTR, addr, text, name=".text" if i == 0 else ".text%d" % i))
        segs.append(ge.Seg(ge.PT_LOAD, addr, text, flags=5))
    return ge.build_elf(64, False, ge.ET_EXEC, prog.entry, secs, segs)


def tty_ok(line):
    b = line.encode("utf-8")
    return len(b) <= 1000 and all((c >= 0x20 or c == 9) and c != 0x7f for c in b)


def g_ui_bin(r):
    """a scripted session with the real binary: the same scripts, without control characters"""
    from . import genelf as ge
    ge.ensure_binary()
    prog = r.choice(PROGRAMS)
    if r.random() < 0.5:
        s = Sess(r, prog)
        target = r.choice([3, 8, 12, 20, 25])
        while len(s.lines) < target and s.one():
            pass
        lines = s.lines[:30]
    else:
        lines = [bytes.fromhex(t[2:]).decode("utf-8") if t != "-" else "" for t in g_ui_deep(r).split()[-0:] if t == "-" or t.startswith("x:")]
    lines = [l for l in lines if tty_ok(l)] + tail(r, prog)
    rows = r.choice([24, 24, 40, 12, 8, 5, 60])
    return "uibin %s %d %d %s" % (elf_of(prog).hex(), rows, len(lines), " ".join(hx(l) for l in lines))


def bin_lines(n=40, seed=2207):
    import random
    r = random.Random(seed)
    return [g_ui_bin(r) for _ in range(n)]
