"""Generators for screen rendering (C24): `render …`, `phicut`, `phisweep` lines (see ops_render.go).

Listings of 3..70 rows (1..50 instructions in 1..8 basic blocks) with the cursor at 0, 1, the middle, last-1, last;
heights from below the minimum to three times the size; register files of 0..34 registers with and without the
instruction pointer, values 1..32 bytes wide (the too-wide error starts at key length + 4 + 2*width = 39); memories of
0..40 rows; the composites the tool builds; synthetic composites of 0..5 stub views with min <= max, max = -1,
min > max, zero sizes and negative minimums; nearly half of them have the shape of the composites of the tool
(two elements, the second of fixed height), the only shape for which the oracle gives a verdict."""

IP = "#r:w:ip"


def c64(v, w=8):
    return "c:" + (v % (256 ** w)).to_bytes(w, "little").hex()


# ---------------------------------------------------------------- code

def code(r, n=None):
    """CODE tokens and an estimate of the number of listing rows."""
    if n is None:
        n = r.choice([1, 1, 2, 2, 3, 3, 4, 5, 6, 8, 10, 12, 15, 20, 25, 30, 40, 50])
    base = r.choice([0, 0, 4096, 1 << 20])
    addrs = [base + 4 * i for i in range(n)]
    njumps = r.choice([0, 0, 0, 1, 1, 2, 3, 5])
    jumpers = set(r.sample(range(n), min(njumps, n)))
    parts = [str(base), str(n)]
    blocks = 1
    for i, a in enumerate(addrs):
        if i in jumpers:
            t = r.choice(addrs)
            parts += [str(a), "4", "1", "rs %s 8 %s" % (IP, c64(t))]
            blocks += 2
        else:
            parts += [str(a), "4", "0"]
    return " ".join(parts), n + 2 * min(blocks, n)


def cursor(r):
    return r.choice(["0", "0", "1", "2", "mid", "mid", "-1", "-1", "-2", "-3", "5", "7", "13", "29"])


def height(r, size, minimum):
    k = r.random()
    if k < 0.08 and minimum > 0:
        return r.randrange(0, minimum)
    if k < 0.30:
        return minimum
    if k < 0.40:
        return minimum + 1
    if k < 0.55:
        return max(minimum, size + r.choice([-2, -1, 0, 0, 1, 2]))
    if k < 0.65:
        return max(minimum, 3 * size)
    return r.randint(minimum, max(minimum, 3 * size))


def g_lines(r):
    cd, size = code(r)
    return "render lines %s %s %d" % (cd, cursor(r), height(r, size, 5))


# ---------------------------------------------------------------- memory

def memory(r):
    k = r.random()
    if k < 0.05:
        return "nil", 0
    if k < 0.10:
        return "0", 0
    nst = r.choice([1, 1, 2, 3, 4, 6, 8, 12])
    base = r.choice([0, 0, 16, 4096, 1 << 32])
    ops = []
    rows = 0
    for _ in range(nst):
        win = r.choice([0, 1, 2, 3, 5, 8, 13, 21, 34])
        off = r.choice([0, 0, 1, 7, 8, 15])
        w = r.choice([1, 2, 4, 4, 8, 8, 16, 24, 40, 64, 100])
        val = bytes(r.randrange(256) for _ in range(w))
        ops.append("st %d %d c:%s" % (base + 16 * win + off, w, val.hex()))
        rows += (off + w + 15) // 16 + 1
    return "%d %s" % (len(ops), " ".join(ops)), rows + 1


def g_mem(r):
    mem, size = memory(r)
    return "render mem %s %s %d" % (mem, cursor(r), height(r, size, 5))


# ---------------------------------------------------------------- registers

NAMES = ["x%d" % i for i in range(32)] + ["f%d" % i for i in range(8)] + ["csr_mstatus", "csr_mtvec", "a", "zz",
                                                                         "a_register_with_a_long_name"]


def regs(r, ip=None):
    """REGS tokens and the number of registers other than the instruction pointer."""
    k = r.choice([0, 0, 1, 1, 2, 2, 3, 4, 5, 6, 7, 8, 9, 15, 16, 31, 32, 33, 34])
    names = r.sample(NAMES, min(k, len(NAMES)))
    wide = r.random() < 0.12
    items = []
    for nm in names:
        w = r.choice([1, 2, 4, 4, 8, 8, 8, 8])
        if wide and r.random() < 0.3:
            w = r.choice([15, 16, 17, 18, 24, 32])
        items.append("%s %d %s" % (nm, w, c64(r.getrandbits(8 * w), w)))
    if ip is None:
        ip = r.random() < 0.5
    if ip:
        items.insert(r.randrange(len(items) + 1), "%s 8 %s" % (IP, c64(r.choice([0, 4, 4096]))))
    return "%d %s" % (len(items), " ".join(items)) if items else "0", len(names)


def g_regs(r):
    rg, n = regs(r)
    rows = (n + 1) // 2
    k = r.random()
    h = rows if k < 0.6 else (rows + r.choice([1, 2, 10]) if k < 0.85 else r.randrange(0, rows + 1))
    return "render regs %s %d" % (rg, h)


def g_prompt(r):
    return "render prompt %d" % r.choice([0, 1, 2, 2, 2, 3, 10])


# ---------------------------------------------------------------- composites of the tool

def g_emu(r):
    cd, size = code(r)
    rg, n = regs(r, ip=False if r.random() < 0.8 else None)
    rows = (n + 1) // 2
    return "render comp emu %s %s %s %d" % (cd, rg, cursor(r), height(r, size + rows + 1, 5 + rows + 1))


def g_uiemu(r):
    cd, size = code(r)
    rg, n = regs(r, ip=False if r.random() < 0.8 else None)
    rows = (n + 1) // 2
    return "render comp uiemu %s %s %s %d" % (cd, rg, cursor(r), height(r, size + rows + 4, 5 + rows + 4))


def g_uidis(r):
    cd, size = code(r)
    return "render comp uidis %s %s %d" % (cd, cursor(r), height(r, size + 3, 5 + 3))


def g_uimem(r):
    mem, size = memory(r)
    return "render comp uimem %s %s %d" % (mem, cursor(r), height(r, size + 3, 8))


# ---------------------------------------------------------------- synthetic composites

def bounds(r, neg):
    k = r.random()
    mn = r.choice([0, 0, 1, 2, 3, 5, 8])
    if k < 0.30:
        mx = mn                                  # fixed
    elif k < 0.60:
        mx = mn + r.choice([1, 2, 3, 5, 10, 40])  # flexible
    elif k < 0.80:
        mx = -1                                  # unbounded
    elif k < 0.90:
        mx = r.randrange(0, mn) if mn > 0 else 0  # invalid: max < min
    else:
        mx = r.choice([-1, -2, -7, 0])
    if neg and r.random() < 0.5:
        mn = -r.choice([1, 2, 5])
    return mn, mx


def g_syn(r):
    k = r.choice([0, 1, 1, 2, 2, 2, 3, 3, 4, 5])
    neg = r.random() < 0.04
    bs = [bounds(r, neg) for _ in range(k)]
    if r.random() < 0.45:
        # the shape of the composites of the tool: two elements, the second of fixed height
        f = r.choice([0, 0, 1, 2, 2, 3, 17])
        bs = [bounds(r, False), (f, f)]
        k = 2
    total = sum(max(b[0], 0) for b in bs) + k - 1
    top = sum((b[1] if b[1] >= max(b[0], 0) else max(b[0], 0)) if b[1] >= 0 else 20 for b in bs) + k - 1
    q = r.random()
    if q < 0.08 and total > 0:
        h = r.randrange(0, total)
    elif q < 0.25:
        h = max(total, 0)
    elif q < 0.35:
        h = max(total + 1, 0)
    elif q < 0.45:
        h = max(top, 0)
    elif q < 0.55:
        h = max(top + r.choice([-1, 1, 5]), 0)
    else:
        h = r.randint(max(total, 0), max(total, top, 0) + 3)
    return "render comp syn %d %s %d" % (k, " ".join("%d %d" % b for b in bs), h) if bs else "render comp syn 0 %d" % h


# ---------------------------------------------------------------- golden ratio cut

def g_phicut(r):
    k = r.random()
    if k < 0.3:
        return "phicut %d" % r.randrange(0, 200)
    if k < 0.7:
        return "phicut %d" % r.randrange(0, 100001)
    return "phicut %d" % r.randrange(100001, 1000001)


def g_phisweep(r):
    lo = 500 * r.randrange(0, 200)
    return "phisweep %d %d" % (lo, 501 if lo + 501 <= 100001 else 500)


# ---------------------------------------------------------------- witnesses of the defects found (F24, F25) and of the
# two observations (O-F24b: MinLines 5 > MaxLines; O-F26: distributeLines without remLines--), which are not violations

CODE8 = "0 8 0 4 0 4 4 0 8 4 0 12 4 0 16 4 0 20 4 0 24 4 0 28 4 0"
CODE3 = "0 3 0 4 0 4 4 0 8 4 0"
CODE1 = "0 1 0 4 0"
WITNESSES = [
    "render lines %s -1 5" % CODE8,                 # F24: cursor on the last line
    "render lines %s 0 11" % CODE8,                 # F24: more rows asked for than the listing has
    "render lines %s -1 5" % CODE3,                 # F24: five lines, fixed height
    "render lines %s 0 5" % CODE1,                  # F24, O-F24b: three lines, MinLines 5
    "render comp uidis %s 0 8" % CODE1,             # O-F24b through the screen of the disassembly mode (passes)
    "render regs 1 %s 8 c:0000000000000000 0" % IP,   # F25: only the instruction pointer
    "render regs 3 %s 8 c:0000000000000000 x1 4 c:01000000 x2 4 c:02000000 1" % IP,   # F25
    "render comp emu %s 0 0 6" % CODE8,             # F25 in the composite of the emulation mode (no register yet)
    "render comp uiemu %s 2 x1 8 c:0000000000000000 x2 8 c:0100000000000000 0 10" % CODE8,   # F25
    "render comp syn 2 0 -1 0 -1 10",               # O-F26: two unbounded elements (19 rows; O=na, not a tool shape)
    "render comp syn 3 1 3 2 2 0 -1 10",            # O-F26
    "render comp syn 2 0 -1 2 2 10",                # the shape of the tool: one growable element, 10 rows
]


def g_witness(r):
    return r.choice(WITNESSES)
