"""Loading pipeline: C20 (ELF loading), C21 (code tiling), C26 (start-up)."""
from .props import Prop, reg, has, nothas
from . import genelf as ge

LOAD_TRUSTED = [
    "debug/elf, the file system and the allocator are outside the model: the model starts from the view "
    "(type, entry, sections, program headers, bytes read) that the harness obtains from debug/elf for the same file",
    "sort.Slice modelled as a stable insertion sort on Begin() (exact for <= 12 blocks or distinct begins)",
    "error classification by the message texts of package mltwist/internal/elf",
]

reg(Prop("C20",
         [("elf", ge.g_elf, 12), ("elfmut", ge.g_elf_mut, 6), ("elfjunk", ge.g_elf_junk, 1),
          ("elfsub", ge.g_elf_sub, 1), ("elff19", ge.g_elf_f19, 0)],
         lambda c: "opened" in c.tags and "wf" in c.tags and "typeok" in c.tags and
                   ("code:ok" in c.tags or "mem:ok" in c.tags),
         "ELF32/ELF64 files in both byte orders built field by field: types 0-4 and exotic ones, 0-4 content sections "
         "(PROGBITS executable or not, NOBITS, other types, address 0, size 0, overlapping, adjacent, nested, unsorted, "
         "compressed, .zdebug), 0-4 program headers (PT_LOAD and others, memsz >, = and < filesz, empty, overlapping, "
         "adjacent, at the top of the address space), with or without section names; a mutation stream (truncation, "
         "flipped header/table bytes, absurd 32-bit fields) and non-ELF files; every file is opened by the harness "
         "with debug/elf (the view) and loaded with mltwist/internal/elf, Address() probed at block edges +-1; "
         "the oracle reads header and tables from the file bytes itself; non-trivial = a well-formed file of an "
         "accepted type for which a code image or a program memory was produced",
         3000, 150000,
         trusted=LOAD_TRUSTED,
         partial="debug/elf (header and table parsing, Section.Data, Prog.Open), the operating system and the Go "
                 "allocator are outside the model; theorems start from the debug/elf view and assume that "
                 "allocations of at most `lim` bytes succeed (F19: no such bound is enforced by the code)"))

from . import rvgen

reg(Prop("C21",
         [("tile", ge.g_tile, 1)],
         lambda c: "image" in c.tags and ("tiles" in c.tags or "fails:short" in c.tags or "fails:unknown" in c.tags)
                   and "blocks0" not in c.tags,
         "code images of 0-4 blocks (1-40 words each) of RV64IMA words generated per reference encoding row with "
         "boundary-biased fields, a third of them address dependent (jal, auipc, branches, jalr); damaged and random "
         "words at rates 0 / 5 % / 30 %, truncated tails and surplus bytes, empty blocks, blocks adjacent, gapped, "
         "overlapping, unsorted, misaligned, at 2^63 and at the top of the address space (also ending exactly at or "
         "beyond 2^64); parser.Parse with riscv.NewParser(Variant64, ExtM, ExtA) compared with the model and with "
         "the oracle (reference decoder at every fourth byte, bytes of each word, constant-folded lifting); "
         "non-trivial = a proper image with >= 1 non-empty block that is tiled by >= 2 instructions or rejected "
         "for a truncated/undefined word",
         3000, 150000,
         trusted=["instruction tables regenerated from /repo on every run (as for C01/C02)",
                  "sort.Slice modelled as a stable insertion sort on Begin()",
                  "error classification by the message texts of packages parser and riscv"],
         pre=[rvgen.regenerate]))

reg(Prop("C26",
         [("startup", ge.g_startup, 10), ("startupbin", ge.g_startupbin, 2), ("startupf19", ge.g_startup_f19, 0)],
         lambda c: "opened" in c.tags and "args1" in c.tags and
                   any(t in c.tags for t in ("ui", "exit1:parse", "exit1:model", "exit1:memory", "exit1:code", "exit1:bytes")),
         "RV64 executables built field by field (1-3 code sections of straight-line RV64IMA words with jumps and branches "
         "to instruction starts, data and bss, entry at an instruction start) that reach the UI, and variants that "
         "provoke every failure stage: jump targets or entry outside the code, damaged or truncated words, foreign "
         "machine code, wrong file type, overlapping segments or sections, no code, no PT_LOAD, memsz < filesz, mutated "
         "files; run() is replayed in-process with the same public calls up to (excluding) ui.Run(); the real binary is "
         "executed with 0, 1, 2+ arguments, a missing path, a directory, empty / non-ELF / truncated files and generated "
         "executables, stdin empty, under ulimit -v 2 GiB and a timeout (entering the UI is recognised by the 'cannot get "
         "terminal size' exit); non-trivial = one argument, file opened by debug/elf, pipeline got past NewParser",
         2000, 60000,
         trusted=LOAD_TRUSTED + [
             "instruction tables regenerated from /repo on every run (as for C01/C02)",
             "stage classification by the message texts of cmd/mltwist/main.go",
             "disassemble.New and consoleui.New are executed but not modelled; ui.Run() and the terminal are outside"],
         partial="debug/elf, the operating system, the allocator and the terminal are outside the model; the theorem "
                 "composes the no-panic theorems of C20, C21, C02, C08 and C15 from the debug/elf view, assuming "
                 "allocations of at most `lim` bytes succeed (F19)",
         pre=[rvgen.regenerate, ge.ensure_binary]))
