"""Basic blocks: C08."""
from .props import Prop, reg, has, nothas
from . import genbasicblock as gb

reg(Prop("C08",
         [("bbparse", gb.g_bbparse, 6), ("bbparse_top", gb.g_bbparse_top, 1), ("bbparse_malformed", gb.g_bbparse_malformed, 1),
          ("bbjumps", gb.g_bbjumps, 2), ("bbwitness", gb.g_witness, 0)],
         lambda c: "bbparse" in c.tags and "wf" in c.tags and
                   (("cuts" in c.tags and "uncut" in c.tags) or ("fails" in c.tags and "empty" not in c.tags)),
         "0-12 synthetic instructions (length 1-4, mostly 4) laid out contiguously with occasional gaps, in shuffled order, "
         "also ending exactly at 2^64; stores to the instruction pointer: constants to instruction starts (forward, backward, "
         "itself, the next instruction), into gaps / inside instructions / beyond the end, conditional (two and three "
         "possibilities), computed constants, symbolic values, constants wider or narrower than 8 bytes (fitting and not); "
         "other effects mixed in; entry point mostly valid; a separate stream of malformed codes (duplicate addresses, overlaps, "
         "zero lengths) checks correspondence only; non-trivial = well-formed code that either is split into >= 2 blocks while at "
         "least one adjacent pair stays together, or has to be rejected",
         3000, 200000,
         trusted=["sort.Slice modelled as a stable insertion sort on Begin() (exact for <= 12 elements or distinct addresses)",
                  "error classification by the message texts of package basicblock"]))
