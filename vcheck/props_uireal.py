"""End-to-end console sessions (op `uireal`): extra streams of C22 (and one each of C23, C31).

The streams of `props_ui.py` check the UI layer of the model with the emulator and the code operations REPLAYED from
the implementation's own observations.  These streams run the COMPOSED model (`Model/Compose.lean`: `realSession`,
`uiStep (paramsAt …)`, `uiNextDeps` -- the definitions the composition theorems of `Props/Compose.lean` are about) on
the same program and console input as the Go program and compare everything the user can observe command by command
(`Driver/UIRealOps.lean`): answer and consumed lines, the value prompts with their keys, addresses and widths in
order, the class of the error message, the mode stack, cursor, `Print` status, the code dump with bounds, the texts
and marks of the listing, instruction pointer, registers with values, memory blocks and the written layer, the text
of the memory view.  Nothing is replayed.  This module is imported after `props_ui` / `props_listing` (alphabetical
order) and only APPENDS streams.
"""
import os
from .props import PROPS
from . import core
from . import genuireal as gr


def _integrated():
    """the op exists on both sides: the harness of the tree under test has ops_uireal.go and the driver registers
    `uirealHandlers` (until both are integrated this module registers nothing)"""
    try:
        with open(os.path.join(core.LEAN, "Driver", "All.lean"), encoding="utf-8") as f:
            drv = "uirealHandlers" in f.read()
    except OSError:
        drv = False
    return drv and os.path.exists(os.path.join(core.REPO, "cmd", "verifharness", "ops_uireal.go"))


if _integrated():
    PROPS["C22"].streams += [("uireal", gr.g_uireal, 2), ("uirealbetween", gr.g_uireal_between, 1), ("uirealtop", gr.g_uireal_top, 1)]
    PROPS["C22"].rule += ("; streams uireal/uirealbetween/uirealtop: END-TO-END sessions of 1-25 commands on programs of 1-3 code blocks "
                          "of RV64IMA words and 0-2 data blocks (op uireal): the composed model (real Deps code operations, the real "
                          "emulator model through stepTree, Overlay(Bytes, Sparse) through ofMem) runs the same script; compared per "
                          "call: status, consumed lines, every value prompt (register key / memory key, address, width, repeats), "
                          "error class, mode stack, cursor, Print status, code dump with bounds, listing texts and marks, IP, "
                          "registers with values, memory blocks, written layer, text of the memory view; at the end the outcome of "
                          "realSession itself; oracle: Spec.UI.checkSession (an endless value prompt at the very end of the input "
                          "accepted), mode stack shape, listing = fresh rendering of the code reported")
    PROPS["C22"].trusted += ["uireal: regexp answers by the driver's exact matcher for ^?(literal|.)*$? patterns and a fixed list of "
                             "patterns CompilePOSIX rejects (the generator produces no other); prompt keys and error classes are "
                             "computed by driver glue that replays stepTree / re-reads the model's decisions (cross-checked: prompt "
                             "widths against the real interaction tree, final states and answers against uiStep)"]
    for _pid in ("C23", "C31"):
        if _pid in PROPS:
            PROPS[_pid].streams += [("uireal", gr.g_uireal_between if _pid == "C23" else gr.g_uireal, 1)]
    # the memory view over the program's real memory (Overlay(Bytes, Sparse) after emulated stores) is only reachable
    # through a session: one end-to-end stream each for the memory view (C32) and the screen rendering (C24)
    for _pid in ("C32", "C24"):
        if _pid in PROPS:
            PROPS[_pid].streams += [("uireal", gr.g_uireal, 1)]
            PROPS[_pid].rule += ("; stream uireal: end-to-end console sessions on real programs (see C22), which show the memory view "
                                 "over the program's own layered memory after emulated stores")
