"""Sparse memory: C14."""
from .props import Prop, reg, has, nothas
from . import gensparse as gs

reg(Prop("C14",
         [("hist", gs.g_hist, 50), ("partial", gs.g_partial, 30), ("hist_high", gs.g_hist_high, 10),
          ("hist_wide", gs.g_hist_wide, 10), ("hist_far", gs.g_hist_far, 8), ("restore", gs.g_restore, 5), ("outdomain", gs.g_outdomain, 1)],
         has("composed"),
         "histories of 2-40 Store/Load/Missing/Blocks on a fresh Sparse: addresses in a 40-byte window (and the same "
         "shapes just below 2^64, and two regions at least 2^63 bytes apart with interleaved operations), widths 1..12 mostly, up to 255; constants with distinct bytes, registers, memory "
         "loads and random trees as values, value width =, < and > store width; stores placed to overlap earlier ones "
         "at either end, inside and adjacent; loads inside one block, across 2-4 blocks, across gaps; every loaded "
         "expression evaluated under 6 valuations against the replayed byte map; aliasing monitor re-prints every "
         "value handed in/returned (expressions, narrowed constants' parents, interval maps of Missing/Blocks); non-trivial = a load succeeded that cuts a stored value at its begin or end or "
         "joins >= 2 stored pieces; distinct = distinct history lines",
         3000, 200000,
         trusted=["github.com/zyedidia/generic/interval (AVL interval tree) modelled as a list sorted by low with unique "
                  "lows and the documented meaning of Overlaps/Add/Put/Remove/Each",
                  "sort.Slice in interval.NewMap modelled as a stable insertion sort on begin"],
         assumptions=["ranges with 1 <= w <= 255 and addr + w < 2^64 (the exclusive end must be representable in "
                      "uint64); outside, only model = code is compared"],
         partial="the clause 'no operation alters a value previously handed to or returned by the memory' is a Go "
                 "aliasing statement: values are immutable in the Lean model; covered by the runtime monitor of the "
                 "harness (alias:ok), not by a theorem"))
