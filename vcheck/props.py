"""Per-property configuration: case streams, non-triviality rule, theorem module."""

TRUSTED_COMMON = [
    "Lean 4.33.0 kernel; axioms propext, Classical.choice, Quot.sound only (audited per theorem on every run)",
    "hand-written Lean model tied to /repo by differential correspondence on this run's cases (sampling, not proof)",
    "Go harness cmd/verifharness (build tag verif), line protocol, mdriver parser/printer, bin/check",
]


class Prop:
    def __init__(self, pid, streams, nontrivial, rule, quick_n, thorough_n, trusted=(), assumptions=(), partial=None,
                 module=None, pre=(), thorough_lines=None, extra_modules=()):
        self.id = pid
        self.streams = streams          # list of (name, generator, weight)
        self.nontrivial = nontrivial    # function(case) -> bool
        self.rule = rule
        self.quick_n, self.thorough_n = quick_n, thorough_n
        self.trusted = list(trusted)
        self.assumptions = list(assumptions)
        self.partial = partial
        self.module = module or ("Mltwist.Props." + pid)
        self.pre = list(pre)
        self.extra_modules = list(extra_modules)   # composition theorems built and audited with this property
        self.thorough_lines = thorough_lines


def has(*tags):
    return lambda c: any(t in c.tags for t in tags)


def nothas(*tags):
    return lambda c: not any(t in c.tags for t in tags)


PROPS = {}


def reg(p):
    PROPS[p.id] = p



# Component modules vcheck/props_*.py register their properties on import.
import importlib, pkgutil, os as _os
for _m in sorted(pkgutil.iter_modules([_os.path.dirname(__file__)]), key=lambda m: m.name):
    if _m.name.startswith("props_"):
        importlib.import_module("vcheck." + _m.name)

# Props/Compose.lean: the cross-slice composition (the assumptions one slice makes about another, discharged
# with the other slice's theorems).  It is rebuilt and audited together with the properties it connects.
for _pid in ("C03", "C07", "C21", "C22", "C23", "C26", "C31"):
    if _pid in PROPS:
        PROPS[_pid].extra_modules.append("Mltwist.Props.Compose")
