"""Per-property configuration: case streams, non-triviality rule, theorem module."""
from . import genexpr as gx
from . import genstate as gs

TRUSTED_COMMON = [
    "Lean 4.33.0 kernel; axioms propext, Classical.choice, Quot.sound only (audited per theorem on every run)",
    "hand-written Lean model tied to /repo by differential correspondence on this run's cases (sampling, not proof)",
    "Go harness cmd/verifharness (build tag verif), line protocol, mdriver parser/printer, bin/check",
]


class Prop:
    def __init__(self, pid, streams, nontrivial, rule, quick_n, thorough_n, trusted=(), assumptions=(), partial=None,
                 module=None):
        self.id = pid
        self.streams = streams          # list of (name, generator, weight)
        self.nontrivial = nontrivial    # function(case) -> bool
        self.rule = rule
        self.quick_n, self.thorough_n = quick_n, thorough_n
        self.trusted = list(trusted)
        self.assumptions = list(assumptions)
        self.partial = partial
        self.module = module or ("Mltwist.Props." + pid)


def has(*tags):
    return lambda c: any(t in c.tags for t in tags)


def nothas(*tags):
    return lambda c: not any(t in c.tags for t in tags)


PROPS = {}


def reg(p):
    PROPS[p.id] = p


reg(Prop("C09",
         [("fold", gx.g_fold, 5), ("fold_closed", gx.g_fold_closed, 2), ("fold_memaddr", gx.g_purge_memaddr, 1),
          ("fold_binop", gx.g_binop, 1), ("fold_less", gx.g_lessconst, 1)],
         lambda c: "changed" in c.tags and "size1" not in c.tags,
         "random expression trees (depth<=5, all operators, widths from {1,2,3,4,8,16,31,32,33,255} and random, "
         "gadget chains, nested Less, MemLoad); non-trivial = folding changed the tree and the tree has > 1 node; "
         "distinct = distinct input lines",
         3000, 150000,
         trusted=["math/big modelled as Nat arithmetic"]))

reg(Prop("C10",
         [("binop", gx.g_binop, 6), ("less", gx.g_lessconst, 2)],
         lambda c: True,
         "one operator applied to two constants: operand and operation widths independent, long carry chains, shift "
         "amounts around 8w and beyond 2^64, divisors truncating to zero; every case is non-trivial; distinct = distinct lines",
         3000, 200000,
         trusted=["math/big (Mul, Div, SetBytes, FillBytes) modelled as Nat arithmetic"]))

reg(Prop("C11",
         [("gadget_const", gx.g_gadget_const, 1), ("gadget_sym", gx.g_gadget_sym, 1)],
         has("spec"),
         "every exported gadget x widths {1,2,3,4,8,9,16,32,127,random} x boundary/random operands; constant operands go "
         "through the real ConstFold, symbolic ones are evaluated by the reference evaluator under 6 valuations; "
         "non-trivial = the documentation defines the value for these operands; distinct = distinct lines",
         3000, 150000))

reg(Prop("C12",
         [("setw", gx.g_setw, 3), ("purge", gx.g_purge, 3), ("purge_memaddr", gx.g_purge_memaddr, 2)],
         has("changed", "cut", "extend"),
         "SetWidth on random trees x target widths; PurgeWidthGadgets on trees with chains of 1-4 width adapters above "
         "every operator and above MemLoad addresses; non-trivial = width actually changes / purge changed the tree",
         3000, 150000))

reg(Prop("C13",
         [("poss", gx.g_poss, 1)],
         has("multi"),
         "random trees with 40% conditionals per level; non-trivial = more than one alternative enumerated",
         2000, 100000))

reg(Prop("C27",
         [("const", gx.g_const, 1)],
         lambda c: True,
         "NewConstUint/NewConstInt/ConstFrom*/ConstUint/WithWidth/NewConst over all 8 integer types, widths 1..20, "
         "values at and around the signed/unsigned limits of the width and of the type; every case non-trivial",
         3000, 200000))

reg(Prop("C28",
         [("equal", gx.g_equal, 3), ("find", gx.g_find, 2), ("repl", gx.g_repl, 2), ("effects", gx.g_effects, 2)],
         nothas("size1"),
         "Equal on identical / one-token-mutated / unrelated trees; FindAll for each kind; ReplaceAll with a width-"
         "selective rule; Exprs/EffectApply on random effects; non-trivial = tree with more than one node",
         3000, 150000))

reg(Prop("C17",
         [("inew", gs.g_inew, 1), ("ibin", gs.g_ibin, 3)],
         has("multi"),
         "interval lists over [-4,45] with forced adjacency, equal begins, nesting, one interval spanning several; "
         "NewMap and union/difference/intersection of two sets; membership compared at every end point +-1; "
         "non-trivial = both operands have >= 2 intervals (>= 3 raw intervals for NewMap)",
         3000, 300000,
         trusted=["sort.Slice modelled as a stable insertion sort on begin"]))
