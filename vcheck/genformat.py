"""Generators for help-text wrapping (C29): `fmt <indent> <width> <hex of s>`.

Main stream: within the precondition (single-line text without leading space, chars = width - 8*indent >= 1).
Texts are built from words of length 1..chars+5 separated by 1-3 spaces, with boundary shapes forced:
a line that fits exactly, a space exactly at position chars, a single long word, trailing spaces, empty text.
Second stream: precondition violations whose outcome has been worked out (chars <= 0, leading spaces,
embedded newlines, negative indent); the harness never executes the diverging ones (see ops_format.go)."""

ALPHA = b"abcdefghijklmnopqrstuvwxyzABCDEFGHIJKLMNOPQRSTUVWXYZ0123456789.,;:-_()'\"/"


def hexs(b):
    return b.hex() if b else "-"


def word(r, n):
    k = r.random()
    if k < 0.06:
        # multi-byte UTF-8 and tabs inside a word: bytes, not runes
        pool = ["é".encode(), "中".encode(), b"\t", b"x"]
        out = b""
        while len(out) < n:
            out += r.choice(pool)
        return out[:n] if out[:n].strip(b" ") == out[:n] else b"y" * n
    return bytes(r.choice(ALPHA) for _ in range(n))


def params(r):
    indent = r.choice([0, 0, 1, 1, 2, 3, 4])
    k = r.random()
    if k < 0.25:
        chars = r.choice([1, 1, 2, 2, 3])
    elif k < 0.8:
        chars = r.randint(3, 16)
    else:
        chars = r.randint(1, max(1, 80 - 8 * indent))
    return indent, 8 * indent + chars, chars


def text(r, chars):
    """Single-line text without leading space."""
    k = r.random()
    if k < 0.03:
        return b""
    if k < 0.10:
        # one long word
        return word(r, r.choice([chars, chars + 1, 2 * chars, 2 * chars + 1, 3 * chars - 1 if chars > 1 else 3, chars + 5]))
    nwords = r.choice([1, 2, 3, 4, 5, 6, 8, 12, 20])
    out = b""
    for j in range(nwords):
        m = r.random()
        if m < 0.15:
            # make the current line fit exactly: the word ends at column chars
            col = len(out) % max(chars, 1)
            n = max(1, chars - col)
        elif m < 0.25:
            n = chars
        elif m < 0.32:
            n = chars + 1
        elif m < 0.4:
            n = r.randint(chars + 1, chars + 5)
        else:
            n = r.randint(1, max(1, min(chars + 5, r.choice([3, 6, chars, chars + 5]))))
        out += word(r, n)
        if j + 1 < nwords:
            out += b" " * r.choice([1, 1, 1, 1, 2, 3])
    t = r.random()
    if t < 0.2:
        out += b" " * r.choice([1, 2, 3, chars, chars + 1])
    return out


def g_fmt(r):
    indent, width, chars = params(r)
    if r.random() < 0.04:
        # a screen as wide as the integer type allows (and deep indentation on wide screens)
        indent = r.choice([0, 0, 1, 2, 11, 12, 20])
        width = r.choice([2 ** 63 - 1, 2 ** 63 - 1, 2 ** 63 - 2, 2 ** 62, 2 ** 32, 2 ** 31 - 1, 8 * indent + 40, 8 * indent + 9])
        chars = min(width - 8 * indent, 40)
    s = text(r, chars)
    assert not s.startswith(b" ") and b"\n" not in s
    return "fmt %d %d %s" % (indent, width, hexs(s))


def g_fmt_exact(r):
    """Forced boundary shapes: a first line of exactly chars bytes, of chars+1 bytes with the space at the
    boundary (index chars), at chars-1, runs of spaces across the boundary."""
    indent, width, chars = params(r)
    k = r.choice(["fit", "fit+w", "sp_at", "sp_before", "run", "two", "nospace"])
    if k == "fit":
        s = word(r, chars)
    elif k == "fit+w":
        s = word(r, chars) + b" " + word(r, r.randint(1, chars + 2))
    elif k == "sp_at":
        a = r.randint(1, chars)
        s = (word(r, a) + b" " * (chars - a) + b" " + word(r, r.randint(1, chars + 2)))
    elif k == "sp_before":
        a = r.randint(1, chars)
        s = word(r, a) + b" " + word(r, chars + r.randint(0, 3))
    elif k == "run":
        a = r.randint(1, chars)
        s = word(r, a) + b" " * r.randint(1, chars + 3) + word(r, r.randint(1, chars)) + b" " * r.randint(0, 2)
    elif k == "two":
        s = word(r, chars) + word(r, r.randint(1, chars)) + b" " + word(r, r.randint(1, chars))
    else:
        s = word(r, r.randint(1, 4 * chars + 3))
    return "fmt %d %d %s" % (indent, width, hexs(s))


def g_fmt_violation(r):
    """Outside the precondition; model = implementation is still compared."""
    indent, width, chars = params(r)
    s = text(r, max(chars, 1))
    k = r.choice(["chars0", "chars0sp", "charsneg", "leadsp", "leadsp", "newline", "negindent", "emptyneg", "onlysp"])
    if k == "chars0":
        width = 8 * indent
    elif k == "chars0sp":
        width = 8 * indent
        s = b" " * r.randint(0, 5)
    elif k == "charsneg":
        width = 8 * indent - r.choice([1, 1, 2, 3, 9])
    elif k == "leadsp":
        s = b" " * r.choice([1, 1, 2, chars, chars + 1]) + s
    elif k == "newline":
        s = s + b"\n" + text(r, chars)
        if r.random() < 0.3:
            s = b"\n" + s
    elif k == "negindent":
        indent = -r.randint(1, 3)
        width = r.randint(-30, 20)
    elif k == "emptyneg":
        s = b""
        width = 8 * indent - r.randint(0, 3)
    else:
        s = b" " * r.randint(1, 2 * chars + 2)
    return "fmt %d %d %s" % (indent, width, hexs(s))
